#!/usr/bin/env python3
"""Regenerates MANIFEST.json from the table below (single source of truth for what is claimed)."""
import json, os, subprocess
V = os.path.dirname(os.path.dirname(os.path.abspath(__file__)))
props = [json.loads(l) for l in open(os.path.join(V, "properties.jsonl"))]

CHECKS = {}
def claim(pid, category, text, note, technique, design_ref, engine):
    CHECKS[pid] = dict(property_id=pid, quick_cmd="./check %s --tier quick" % pid, thorough_cmd="./check %s --tier thorough" % pid,
                       evidence_file="/verif/evidence/%s.json" % pid, replay_cmd_template="./check %s --replay {path}" % pid,
                       engine=engine, level_claimed=dict(category=category, text=text, design_ref=design_ref), level_note=note,
                       technique=technique)

claim("C03", "model_checking",
      "TLC checks FreshOnly/AtMostOnce/FailuresLeaveNothing/PruneSound exhaustively on specs/Replay/TcpReplay.tla with the constants read "
      "from the compiled code (tick grid of 3 instants per second around the 30/60/61 s boundaries, up to 2 concurrent presenters); the "
      "state graph (path cover) and simulated deeper walks are replayed on the real StreamServer.HandleStream inside testing/synctest "
      "with verifhook gates executing the interleavings, and the property is evaluated on what the real server answered. Test purposes "
      "(TPTcpReplay.tla: pool list order != expiry order at a pruning Add; boundary and race purposes) make TLC produce witness behaviours "
      "of corners the covers do not reach (4 requests, 2 presenters), which are replayed too.",
      "AEAD/key derivation trusted; bounded constants (<=2-3 requests, <=3-5 clock advances from a boundary alphabet); presenters "
      "interleave only at the TryContains/validate/Add boundaries.",
      "TLA+ spec + TLC exhaustive model checking; gated state-graph replay into the real server under a virtual clock",
      "DESIGN.md 4/C03", "tcpreplay")

claim("C08", "model_checking",
      "TLC checks ViewsAgree/LiveTracksCache/AttributionOK (and the saver invariants) on specs/Cred/CredStore.tla for every interleaving of two "
      "concurrent API clients, reloads, administrator edits and the saver; in the thorough tier each original defect switched back on must "
      "violate an invariant (non-vacuity). The sequential state graph is replayed through the real management API handlers, cred.Manager, the "
      "TCP/UDP CredStores and real TCP/UDP handshakes per key (virtual clock for the debounced save), all views compared after every step; "
      "concurrent API traffic with real scheduling, perturbed at the verifhook points, must end with the three views agreeing, also under the "
      "race detector.",
      "Universe of 2 users x 2 keys; the structure constants of the spec (what happens under ManagedServer.mu) are bound by replay outcomes, "
      "perturbed stress and the race detector, not derived from the code; AEAD trusted.",
      "TLA+ spec + TLC exhaustive model checking; state-graph replay through the real API/servers; randomized concurrent runs with quiescent agreement oracle",
      "DESIGN.md 4/C08", "credstore")
claim("C20", "fault_enumeration",
      "The file operations of one real save are read from an strace and become the model's SaveOps; TLC checks OldOrNew/AlwaysLoadable/"
      "AckedThenSaved with a crash or write error between and inside any of them and shutdown at every saver phase. On the real code a child "
      "process performs the save with RLIMIT_FSIZE=k for every k over the document length, SIGKILL at the verifhook points and (strace fault "
      "injection) at the save's own fsync/fchmod/rename system calls, each followed by a real restart that must accept the previous or the new "
      "user set; shutdown is replayed with the saver gated at every phase of the debounce.",
      "Crash = process death (page cache survives, no power-loss model); stores of 0..3 users; one strace run defines the operation sequence.",
      "TLA+ spec of the save/crash/shutdown state machine checked by TLC with strace-derived operations; fault enumeration in a child process; gated shutdown replay",
      "DESIGN.md 4/C20", "credstore")

claim("C09", "exploration",
      "specs/Route/Router.tla defines routing twice: declaratively in Kleene logic from the RouteConfig field comments (the oracle) and as the "
      "criterion list the code builds; TLC checks that the second refines the first (ImplRefinesDecl, LookupMonotone, AppendLaw) over route and "
      "request lattices and prints every (configuration, request, resolver behaviour, expected) case; each case is rendered to the real JSON "
      "router.Config, built with Config.Router with fake clients and scripted resolvers, and GetTCPClient/GetUDPClient is compared (panics are results).",
      "GeoIP and regexp rules not covered; exhaustive only over the catalogue lattices (<=2 criterion kinds per route, the full destination group, "
      "template orders <=3-4 routes), longer lists sampled; two documented-ambiguous combinations are notes, not verdicts.",
      "TLA+ declarative spec + TLC enumeration of model-derived cases replayed on the real Router",
      "DESIGN.md 4/C09", "router")
claim("C11", "model_checking",
      "TLC checks RightDestination/RepliesToOwner on specs/Relay/UdpRelay.tla for every interleaving of two sessions with the direct client's "
      "resolution cache as separate check/resolve/store/load steps (thorough: a shared packer must violate RightDestination). The interleavings "
      "are replayed on real NAT relays on loopback built from a JSON service.Config (generic and recvmmsg/sendmmsg paths), with the verifhook "
      "points in the relay and in the packer as scheduler gates and a scripted DNS server behind net.DefaultResolver: which target socket got "
      "which payload, which client got which reply from which source, and that garbage creates no session, are compared. The batched uplink of the "
      "sendmmsg path is modelled as coded (UpBatch/UpPack: every queued packet packed, one sendmmsg) and replayed with two destinations; garbage "
      "is sent at every state of a session incl. as the first datagram of an address.",
      "SOCKS5 and Shadowsocks 2022 servers + direct client relays; other protocol pairs share the relay code and differ in the packers (C05); "
      "kernel UDP on loopback; lookups failing inside a batch are model-checked but not replayed.",
      "TLA+ spec + TLC exhaustive model checking; gated replay of TLC interleavings on real UDP relays over loopback sockets",
      "DESIGN.md 4/C11", "udprelay")
claim("C12", "model_checking",
      "TLC checks NoSendOnClosed/NoLeak/SocketReleased and, under weak fairness of the goroutine steps with NAT timers disabled once Stop has "
      "begun, StopTerminates and IdleEvicts on specs/Relay/UdpRelay.tla (thorough: without the re-arm guard StopTerminates must fail). The "
      "state graph, with the steps the real system takes by itself treated as urgent, is replayed on real NAT relays on loopback with the "
      "verifhook points as scheduler gates: Stop latency against the NAT timeout, goroutine and socket accounting after Stop, eviction after "
      "the NAT timeout and a fresh session afterwards are observed on the real process. System level: specs/System/Manager.tla "
      "(Manager.Run: start order, failing listener anywhere, stop order) is run on the real service manager with live UDP sessions; the "
      "client session object and a socket fault after it exists (InitFailSock) are replayed on relays with a SOCKS5 client (descriptor limit "
      "as the fault), the batched uplink with Stop at any point of a batch on the sendmmsg relays.",
      "NAT relays (socks5 server, direct client), generic and sendmmsg; the session relays share the skeleton; 'prompt' = min(natTimeout/3, 8 s); "
      "real-time eviction replays tolerate (skip) spontaneous timeouts on a slow machine.",
      "TLA+ spec + TLC safety and liveness checking; gated replay of lifecycle interleavings on real UDP relays with leak accounting",
      "DESIGN.md 4/C12", "udprelay")
claim("C13", "model_checking",
      "TLC checks the stream-prefix, initial-payload-once, failure-reply, half-close and statistics invariants and termination on "
      "specs/Relay/TcpRelay.tla for every wait decision (server native x client native x listener flag). Every path of the state graphs becomes "
      "one real connection through a TCP relay built from a JSON service.Config (server protocol x client protocol, proxy client protocols chained "
      "through a second relay), harness client through the repository's own client code, harness target on loopback: stream positions, "
      "end-of-stream order, replies and the statistics API are compared. The target may reset the connection at any time.",
      "After a reset the client sends nothing more (environment assumption of the spec). Kernel TCP on loopback; byte unit mapped to 1/700/1440/1441/70000 bytes; dial failures: refused, unreachable, lookup failure, router rejection.",
      "TLA+ spec + TLC model checking; state-graph paths replayed as real connections through a relay built from service.Config",
      "DESIGN.md 4/C13", "tcprelay")

claim("C06", "exploration",
      "specs/Wire/Lattice.tla models every network-facing parser as a straight-line program of length checks, slice accesses and reads over a "
      "field-class lattice (valid, boundary, illegal enum, too long, truncated at/around every field, absent; an inner-cut class for the AEAD "
      "protocols) for 17 entry points, and continues through routing (15 router configurations forcing each port/domain/prefix representation), "
      "dial, reply (Proceed/Abort with every result code) and relay; TLC checks InBounds/TruncRejects/RouterTotal and prints the cases. Each case "
      "is concretised into bytes (several seeded concretisations), fed to the real entry point over a scripted fragmenting connection or in the "
      "relay's buffer layout, and continued through the real router, client encoders, replies and copy; a second layer sends the server-side cases "
      "over loopback into a real service.Manager and probes every listener with a well-formed request. Children isolate crashes.",
      "Structure-aware enumeration, not coverage-guided byte fuzzing: byte strings outside the class lattice are reached only through the seeded "
      "random fill; HTTP and DNS wire parsing are library code modelled only by what makes them fail; source port 0, GeoIP, TLS listeners, tproxy excluded.",
      "TLA+ parser/lattice spec + TLC case enumeration; model-derived byte cases through the real entry points, router, replies and relays in child processes",
      "DESIGN.md 4/C06", "lattice")

claim("C05", "exploration",
      "specs/Packet/UdpLayout.tla models one datagram through one relay hop (Configure, OriginPack, Recv/Truncated, RelayUnpack, RelayPack, "
      "PeerUnpack) with header lengths, headroom tables, MTU-derived sizes, the padding bound and both service buffer formulas as operators over "
      "constants read from the compiled code; TLC checks InBuffer/WithinMtu/TooBigIsRefused/RelaySafe/RoundTrip/PaddingBounded over the case "
      "lattice and prints the cases. Every case is replayed on the real packers/unpackers in canary-filled buffers sized by the relays that "
      "service.Config.Manager really builds (read by reflection), incl. identity-header chains; a sample goes through real relay services on "
      "loopback (v4/v6, with and without mmsg batching). specs/Packet/UdpSession.tla models the client address history of one session on a "
      "dual-stack listener and the downlink's cached size limit; every history is played on a real Shadowsocks 2022 session relay.",
      "Padding amounts are the code's own random choice (bounds and shifts are checked, not exact values); cipher fidelity is observed on the "
      "replayed samples, not modelled; live relays sample 1 configuration per protocol pair in quick.",
      "TLA+ layout spec + TLC case enumeration; model-derived cases on the real codecs with canaries and through real relays",
      "DESIGN.md 4/C05", "udplayout")
claim("C10", "exploration",
      "specs/Sets/{DomainSet,PortSet,PrefixSet}.tla transcribe the suffix trie (insert/purge/stop-at-leaf, match), the linear and map suffix "
      "matchers, the matcher-selection table, the text parser and the text/gob conversions, the port bit set with the RangeSet scan and binary "
      "search, and prefix-set text round trips, each next to its declarative meaning; TLC checks MatchIsMeaning, TrieCanonical (independent of "
      "insertion order), ConversionsPreserve, BitsAreTheSet, RangesAreTheRuns ... exhaustively over small alphabets. Every TLC state becomes a case "
      "on the real builders at sizes across the thresholds (inert padding), through text->gob->text, domainset.Config files and the converter "
      "binary; all 65535 ports are asked of every representation; prefix sets are probed at prefix edges.",
      "Rule alphabets {a,b,.}, names <=4 characters, <=4 rules (larger sizes via inert padding); regexp and bart semantics are taken from their "
      "libraries; parse/load refusals that differ from the model are notes.",
      "TLA+ transcriptions + TLC exhaustive checking; every model state replayed as a case across all real representations",
      "DESIGN.md 4/C10", "sets")

claim("C07", "model_checking",
      "specs/Wire/Handshake.tla models one connection with client and server as phase automata at byte level (real offsets of the 262-byte SOCKS5 "
      "scratch buffer, UNAME overwritten by PASSWD, bufio read-ahead of the HTTP server and client, ss-none), one action per blocking read, the "
      "transport delivering arbitrary segmentations; TLC checks Faithful/AuthGate/ReplyMatches/Transparent/FragInsensitive/StreamAligned "
      "(two design mutants must be refuted). Every edge of the emitted state graphs is replayed inside testing/synctest in three modes: real "
      "server with client bytes from the model, real client against a server scripted from the model, real client against real server, over a "
      "scripted fragmenting conn; extracted address/user, the auth gate, reply per dial result (the compiled table is compared for all 256 "
      "codes), client outcome and post-handshake stream contents are compared.",
      "HTTP text parsing is net/http's (heads are line units); TLS proxy variants, early data before the 2xx and half-close are out; quick covers "
      "one of six variants per seed.",
      "TLA+ spec + TLC exhaustive model checking; full state-graph replay over a scripted fragmenting connection against the real servers and clients",
      "DESIGN.md 4/C07", "handshake")
claim("C15", "model_checking",
      "specs/Pipe/Pipe.tla has one action per atomic step of netio/pipe.go (write mutex, rendezvous send and count-back, done channels with "
      "store-error-then-close, deadline timers with replaced cancel channels); TLC checks NoPanic/AtomicWrites/CountIsConsumed/WriteResult/"
      "ClosedForever/ReverseUnaffected/DeadlineUnblocks/BlockedLegitimately and, under weak fairness, EventuallyReturns. Sequential-start "
      "schedules are replayed with one goroutine per call and parked-goroutine detection; free-running histories from 2-4 goroutines per end and "
      "the replays are judged by direct oracles and by TLC trace validation against TracePipe.tla (unlogged steps inferred, high-water-mark "
      "postcondition); race probes hit the store-then-close and timer-vs-set windows. The combined SetDeadline and Close are actions of their "
      "own, replayed in every half-close state of both ends.",
      "Exhaustive claims cover at most 4 calls from small alphabets; the replay driver forces sequential-start schedules only (racing starts come "
      "from free-running histories and probes); WriteTo sinks are assumed not to block; a deadline that fires too early is not detected.",
      "TLA+ spec + TLC safety/liveness checking; schedule replay with parked-goroutine detection and TLC trace validation of recorded histories",
      "DESIGN.md 4/C15", "pipe")

claim("C04", "model_checking",
      "specs/Replay/SlidingWindow.tla (the ring made explicit next to a ghost set, sizes as a state variable, block width and ring length read "
      "from the compiled code) and specs/Replay/UdpSession.tla (lazy filter, current/old server session, one-change-per-minute guard, relay "
      "eviction at MinNATTimeout, packets good/forged/header-flipped/bad-type/foreign-csid) are checked by TLC for Exact/Refinement/AddEquiv and "
      "DeliverOnce/FreshAccepted/BadPacketsInert/OneChangePerMinute/OldSessionStillFiltered. Graph covers and simulated walks are replayed into "
      "the real SlidingWindowFilter at bases 0, 2^32 and just below 2^64; every alphabet sequence to depth 4 (quick) / 6 (thorough) is enumerated on "
      "the real filter against the ghost-set oracle; session behaviours are replayed inside testing/synctest against the real UDPServer/UDPClient "
      "unpackers with packets made (and re-sealed) by the real packers, each behaviour twice (with and without the bad deliveries).",
      "TLC depth 6 only for sizes 1,2,63,64 (depth 5 for 65..1000; depth 6 for all sizes is enumerated on the real filter); ids near 2^64 by "
      "translation; the one-minute guard is a literal in the code and a spec constant; relay eviction is played by the driver.",
      "TLA+ specs + TLC exhaustive model checking; graph replay and bounded-exhaustive enumeration on the real filter and unpackers under a virtual clock; thorough: Apalache inductive invariant (unbounded counters) for the window filter",
      "DESIGN.md 4/C04", "udpreplay")
claim("C14", "model_checking",
      "specs/Stats/Collector.tla has one action per atomic add / swap / lock section of stats/collector.go and the api/ssm projections; TLC checks "
      "Conservation/NoInvention/Attribution/TotalIsSum/ApiUserExact on all interleavings of concurrent collects and snapshots (the user-endpoint "
      "defect variant must violate ApiUserExact). Concurrent real calls (direct and through the in-process api/ssm handlers) are recorded as "
      "call/return traces and validated by TLC per (bucket, figure) against TraceCollector.tla (a corrupted history must be rejected); sequential "
      "histories of the state graph are replayed through the real handlers; long runs with back-to-back resets check quiescent conservation.",
      "The collector has no gates: real interleavings are whatever the scheduler produces (all interleavings are covered on the model only); trace "
      "amounts stay below 2^31; the relays' Collect* call sites are C11/C13's.",
      "TLA+ spec + TLC exhaustive model checking; TLC trace validation of recorded concurrent histories; sequential replay through the real API handlers",
      "DESIGN.md 4/C14", "collector")
claim("C18", "exploration",
      "specs/Config/Config.tla defines Valid (exactly the named invariants), Effective (documented defaults, omitted = empty = default), the legacy "
      "field migration, and a state machine with one action per section of Config.Manager through Start/Traffic/Stop; the points where the code "
      "could differ from the documentation are constants probed from the compiled code. TLC checks AcceptedIsValid/DefaultsAsDocumented/NoCrash/"
      "OmittedIsEmpty/MigrationPreserves and enumerates the configuration lattice. Each case is rendered to JSON, loaded as cmd/shadowsocks-go "
      "does (jsoncfg.Load, Config.Manager) in a child process, its effective settings read off the real manager, and accepted configurations are "
      "run on loopback under a smoke script (TCP connection, UDP round trip, unauthenticated-connection probe per listener).",
      "GeoIP, TLS and tproxy/redirect traffic are excluded; some effective settings are read by reflection on unexported fields (unreadable = note); "
      "32 dimensions applied as singles, pairs and seeded 3-5-fold combinations, not the full product.",
      "TLA+ validity/defaults spec + TLC enumeration of model-derived configurations through the real loader and running services in child processes",
      "DESIGN.md 4/C18", "config")
claim("C19", "model_checking",
      "specs/Groups/ClientGroup.tla models round-robin as call / atomic add / return, random selection, and the three probing policies with the "
      "worker pool, per-probe ring writes, the strict-improvement scan in configuration order, mid-round cancellation; TLC checks TicketsDistinct/"
      "NoneSkipped/SelectedIsArgBest/ScanIsArgBest/AlwaysMember/StableDuringRound/ServesPreviousWhileProbing with scaled rings exhaustively and "
      "with the real 64/32 rings (read from the code) on bounded-round graphs, simulations and scripted histories longer than the retention. "
      "Behaviours are replayed inside testing/synctest on groups built by the real AddClientGroup over fake members answering the real probes "
      "after scripted virtual latencies; round-robin under 8 concurrent callers is trace-validated (hidden atomic adds inferred) and counted.",
      "Ring wrap-around with the real sizes is covered by scripted and simulated histories, not exhaustively; a UDP member can only fail by a "
      "NewSession error; rounds longer than the interval are not modelled; the 63-bit counter wrap is assumed away.",
      "TLA+ spec + TLC model checking; replay under a virtual clock on real client groups; TLC trace validation of concurrent round-robin",
      "DESIGN.md 4/C19", "clientgroup")

claim("C01", "model_checking",
      "specs/Stream/SS2022Stream.tla carries byte positions as intervals and frames with their nonces: Dial (padding rules, request/payload "
      "split, identity headers), Deliver(k) (transport segmentation), ServerHandle, Write (first-write layout), ReadFrom, Read (left-over "
      "handling, direct/buffered paths), WriteTo, Relay (tunnel-to-tunnel both ways), CloseWrite; TLC checks Prefix/Conservation/Lockstep/"
      "RequestFaithful/EofLast/FramesOK and EventuallyDrained under fairness with toy constants exhaustively and with the real constants "
      "(measured from the compiled code) on graphs. The graphs are replayed edge by edge on the real StreamClient.DialStream / "
      "StreamServer.HandleStream / conns over a scripted fragmenting transport with position-coded payloads; every byte read, the end-of-stream "
      "point and the request's target, user and payload split are compared. Idle(d): silence of 45 s / 10 min while nothing is on the wire, "
      "replayed under a virtual clock.",
      "AEAD and key derivation are trusted (observed on the replayed bytes); a read that would block is modelled as not enabled; quick replays a "
      "seeded 900-path cover per primary graph; identity-header chains deeper than 1 end in relays built in the harness.",
      "TLA+ spec + TLC model checking; state-graph replay over a scripted fragmenting transport against the real tunnel endpoints",
      "DESIGN.md 4/C01", "stream")
claim("C02", "model_checking",
      "specs/Stream/SS2022Attack.tla lets the reader consume bytes (not frames) with AEAD as an axiom blind to the frame kind, an attacker with "
      "Flip/Cut/Drop/Dup/Swap/Splice/Junk/Substitute applied to a second recorded session of the same or another key, and the reader calls "
      "ServerHandle (with fallback), ClientFirst (salt binding), Read; TLC checks OnlyGenuinePrefix/TouchFails/NoForgery/ResponseBound/"
      "FallbackOnlyUnauthenticated/NonceOnlyOnOpen (the as-coded variant without the read latch must violate OnlyGenuinePrefix). Each behaviour "
      "records genuine sessions, applies the operators at byte level to the real ciphertext (every byte of handshake and length frames in "
      "thorough), and a fresh real endpoint consumes the result while the driver keeps reading after errors.",
      "At most 2 attacker operations per behaviour, applied before reading starts; AEAD assumed correct; reject policies not exercised.",
      "TLA+ attacker spec + TLC model checking; byte-level tamper replay of recorded real sessions against fresh real endpoints",
      "DESIGN.md 4/C02", "stream")

claim("C16", "model_checking",
      "specs/Http/Forwarder.tla has 18 actions mirroring httpproxy/server.go: the handshake loop with the 407 round, Proceed/Abort, the request "
      "forwarder (filter, announce on the capacity-16 queue, write, next read with host-change / CONNECT / close handling) and the response "
      "forwarder (peek, take, interim vs final, close conditions, redirects), client and origin as the environment, messages as abstract records "
      "with the filter defined as the property words it; TLC checks QueueBound/NoDrop/InOrder/InterimNotFinal/NothingBeforeAuth/Filtered/"
      "WrongHostNeverSent/CloseEnds/Terminates. Path covers and simulated walks are replayed against the real ServerHandle(...).Proceed() inside "
      "testing/synctest with a scripted client and origin on netio pipes; messages are rendered with randomised casing, field order and chunking, "
      "and what each peer received is parsed back and compared field by field. Follow-up hosts and redirect locations come from a table of 18 "
      "spellings (other port, other case, default port, other domain, IP literals).",
      "Schedules are exact at quiescent points only; every message arrives complete; HTTP/1.0, malformed field syntax and obs-fold are not "
      "generated (framing is net/http's); response-direction field leaks are notes (the property words the filter for requests).",
      "TLA+ spec + TLC model checking; replay of TLC behaviours against the real HTTP proxy forwarder under a virtual clock",
      "DESIGN.md 4/C16", "forwarder")

claim("C17", "model_checking",
      "specs/Dns/Resolver.tla has one action per blocking point of dns/dns.go (Lookup with cache promotion and expiry, UdpRecv with source check / "
      "parse / truncation, UdpTimeout, TcpDial, TcpRecv, TcpEof, TcpCut, TcpTimeout, Cancel, Advance), Parse mirroring parseMsg check by check, "
      "29 upstream message kinds; specs/Dns/Lru.tla follows cache/cache.go's pointer code. TLC checks OnlyOwnAnswers/TtlHonoured/ExpiryIsMinimum/"
      "FallbackOrder/FailureMeansFailure/StaleOnlyOnFailure/NoPoisoning/LruConsistent; the resolver's unexported durations and its two expiry "
      "rules are measured on the compiled code. TCP-only resolvers are replayed inside testing/synctest with a fake StreamClient (exact TTL "
      "histories), resolvers with UDP in real time against loopback upstreams (wrong-port and wrong-address sockets for the source check); the "
      "real cache is compared in list order after every step; the complete Lru graph is replayed on a real BoundedCache; mutated and random "
      "bytes go through the parser.",
      "Whole-second time grid; UDP replays run in real time and never assert on elapsed time (under extreme load a model hit that is a real miss "
      "is a note); A/AAAA records only in answers of their own type; two concurrent callers are replayed over TCP only.",
      "TLA+ spec + TLC model checking; replay under a virtual clock (TCP) and over loopback sockets (UDP) against the real resolver and cache",
      "DESIGN.md 4/C17", "resolver")

NA = {}

def main():
    hooks = subprocess.run(["git", "-C", "/repo", "log", "--format=%h %s", "--grep=^verif:"], stdout=subprocess.PIPE, text=True).stdout.split("\n")
    m = {
        "version": 1,
        "setup_cmd": "python3 lib/setup.py",
        "hooks": {
            "guard": "verif",
            "enable": "go test -tags verif (the harness module under /verif/harness replaces the shadowsocks-go module with /repo)",
            "baseline_off_cmd": "cd /repo && env -u GOTOOLCHAIN -u GOSUMDB GOFLAGS=-mod=mod GOPROXY=off go test -vet=off -count=1 -timeout 25m ./...",
            "source_commits": [h.split()[0] for h in hooks if h.strip()],
            "add_only": True,
        },
        "engines": [],
        "checks": [CHECKS[p["id"]] for p in props if p["id"] in CHECKS],
        "notes": "One entry point: ./check <id> --tier quick|thorough. Every check runs TLC on the family's TLA+ spec with constants read "
                 "from the compiled code, replays TLC behaviours into the real code (and/or validates recorded traces), and evaluates the "
                 "property on the real behaviour. Exit 2 = machinery broken (never a violation). See DESIGN.md.",
        "not_applicable": [{"property_id": p["id"], "reason": NA.get(p["id"], "check not built yet (planned, see DESIGN.md section 4)")}
                           for p in props if p["id"] not in CHECKS],
    }
    eng = {}
    for c in m["checks"]:
        eng.setdefault(c["engine"], []).append(c["property_id"])
    m["engines"] = [{"name": k, "path": "/verif/specs + /verif/harness/drivers", "serves_properties": v,
                     "kind_free_text": "TLA+ spec checked by TLC, bound to the code by replay/trace validation"} for k, v in eng.items()]
    json.dump(m, open(os.path.join(V, "MANIFEST.json"), "w"), indent=1)
    print("claimed:", sorted(CHECKS), "not applicable:", len(m["not_applicable"]))

if __name__ == "__main__":
    main()
