#!/usr/bin/env python3
"""Prints the markdown table of seeded changes and what the checks reported for them (from seeded/*/meta.json)."""
import json, os, glob
rows = []
for d in sorted(glob.glob("/verif/seeded/*")):
    m = json.load(open(os.path.join(d, "meta.json")))
    name = os.path.basename(d)
    cr = m.get("check_results", {})
    q = cr.get("quick") or {}
    t = cr.get("thorough") or {}
    def fmt(r):
        if not r:
            return "-"
        if r.get("detected"):
            return "caught: " + ", ".join("`%s`" % k for k in r.get("keys", [])[:3])
        return "missed (exit %s)" % r.get("exit")
    note = m.get("note", "")
    rows.append("| %s | %s | %s | %s | %s |" % (name, m.get("title", "").replace("|", "/"), (m.get("needs", "") or "")[:160].replace("|", "/").replace("\n", " "), fmt(q) + ((" / thorough " + fmt(t)) if t else ""), note))
print("| Seeded change | What it does | Needs | Check result (quick) | Note |")
print("|---|---|---|---|---|")
print("\n".join(rows))
